----------------------------- MODULE ClientMuxOS -----------------------------
(* C10 - the runner's client multiplexer when the client is an OS PROCESS (runCommand), which is how
   a client under test is always run.  Same runner-side actions as ClientMux.tla; what differs is
   the plumbing between the runner's synchronous pipes and the child:

     stdin :  sender --io.Pipe--> [stdin copier goroutine of the exec layer] --> OS pipe buffer --> child
     stdout:  child --> OS pipe buffer --> [stdout copier] --io.Pipe--> reader

   so a request is "written" as soon as the copier has taken it (the child need not have read it),
   a dead child is only noticed when the copier next tries to forward bytes (or stdin is closed),
   the child's writes never block, and the runner's ends are closed only after cmd.Wait returned,
   which needs the child gone AND both copiers finished.

   Processes and their atomic steps (one action per critical section / blocking point):
     Sender(s)  : sendRequest  = SendCall -> CheckErr -> Lock -> Register -> (write prefix, write body) ->
                                 WriteDone | WriteFail -> SendRet
     Reader     : consumeOutput = Read (one message / end of stream) -> Lookup -> Cb (callback) | Fail ->
                                 CloseSendByReader -> Drain (one callback per still-pending request) -> Done
     Closer     : closeSend     = CloseCall -> CloseDo -> CloseRet
     Waiter     : waitForResponses = WaitCall -> WaitDone -> WaitRet
     Proc       : the in-process peer wrapper: after the client function returns it closes the
                  client's ends of the pipes (ClosePipes), then signals completion (ProcDone sets the
                  liveness flag)
     Client     : the environment (the harness plays it): reads request bytes from stdin in two
                  chunks (prefix, body), writes answers / garbage / oversize / truncated output,
                  exits at any point.
   Pipes are synchronous (io.Pipe): a write completes only when the other side has taken the bytes
   or an end was closed.

   Actions whose names end in Call/Ret and the callback action Cb are the *observable* events (the
   harness logs exactly these); all other actions are internal to the runner / pipes.           *)
EXTENDS Naturals, Sequences, FiniteSets, TLC

CONSTANTS Senders,      \* set of sender ids
          Script,       \* Script[s] : sequence of test names sender s sends, in order
          Names,        \* all names used by scripts
          MaxCliOps,    \* bound on client read/write operations
          FaultKinds,   \* subset of {"garbage", "oversize", "trunc"} the client may write
          AllowZZ,      \* may the client answer a name nobody asked for
          AllowEarly,   \* may the client answer a request before having read all of it
          AnyName,      \* may the client answer any name of the scripts at any time (full generality)
          KeepHist      \* TRUE: record the controller schedule (generator)

None == "none"
NoW == [s |-> "-", n |-> "-", ph |-> 0]      \* no stdin write in flight
NoO == [kind |-> "-", n |-> "-"]             \* no stdout write in flight

VARIABLES
  pc, idx, res,                               \* senders
  lock, pending, closedSend, err, terminated, done,   \* runner shared state
  wif,                                        \* stdin write in flight: None or [s, n, ph]
  stdinR,                                     \* client's read end of stdin open
  wof, rpartial, outClosed,                   \* stdout: copier write in flight, reader holds partial msg, writer end closed
  gone,                                       \* the child process has really ended (its pipe ends are closed)
  copier, inbuf, outbuf, outEOF,              \* exec layer: stdin copier state, OS pipe contents (stdin / stdout), stdout copier done
  rpc, rmsg, rerr, seen,                      \* reader
  cpc, cop, cret, cops, inbox, aborted, exitFail, readPh,    \* client
  pipesClosed, pdone,                         \* process wrapper
  kpc, wpc, wres,                             \* closer, waiter
  regs, cbs, cblog,                           \* bookkeeping for the properties
  hist

rvars == <<lock, pending, closedSend, err, terminated, done>>
osv == <<copier, inbuf, outbuf, outEOF, gone>>
vars == <<pc, idx, res, lock, pending, closedSend, err, terminated, done, wif, stdinR, wof, rpartial, outClosed,
          copier, inbuf, outbuf, outEOF, gone,
          rpc, rmsg, rerr, seen, cpc, cop, cret, cops, inbox, aborted, exitFail, readPh, pipesClosed, pdone,
          kpc, wpc, wres, regs, cbs, cblog, hist>>

Cur(s) == Script[s][idx[s]]
H(e) == hist' = IF KeepHist THEN Append(hist, e) ELSE hist

Init ==
  /\ pc = [s \in Senders |-> "idle"] /\ idx = [s \in Senders |-> 1] /\ res = [s \in Senders |-> None]
  /\ lock = None /\ pending = {} /\ closedSend = FALSE /\ err = FALSE /\ terminated = FALSE /\ done = FALSE
  /\ wif = NoW /\ stdinR = TRUE
  /\ wof = NoO /\ rpartial = FALSE /\ outClosed = FALSE
  /\ copier = "run" /\ inbuf = <<>> /\ outbuf = <<>> /\ outEOF = FALSE /\ gone = FALSE
  /\ rpc = "reading" /\ rmsg = None /\ rerr = None /\ seen = {}
  /\ cpc = "idle" /\ cop = None /\ cret = None /\ cops = 0 /\ inbox = {} /\ aborted = FALSE /\ exitFail = FALSE /\ readPh = 1
  /\ pipesClosed = FALSE /\ pdone = FALSE
  /\ kpc = "idle" /\ wpc = "idle" /\ wres = None
  /\ regs = [n \in Names |-> 0] /\ cbs = [n \in Names |-> 0] /\ cblog = <<>>
  /\ hist = <<>>

(* ------------------------------------------------------------------ senders *)
SendersDone == \A s \in Senders : pc[s] = "fin"

SendCall(s) ==                      \* OBSERVABLE: sender s calls sendRequest(Cur(s))
  /\ pc[s] = "idle"
  /\ pc' = [pc EXCEPT ![s] = "called"]
  /\ H(<<"S", s>>)
  /\ UNCHANGED <<osv, idx, res, lock, pending, closedSend, err, terminated, done, wif, stdinR, wof, rpartial, outClosed,
                 rpc, rmsg, rerr, seen, cpc, cop, cret, cops, inbox, aborted, exitFail, readPh, pipesClosed, pdone,
                 kpc, wpc, wres, regs, cbs, cblog>>

CheckErr(s) ==
  /\ pc[s] = "called"
  /\ IF err THEN pc' = [pc EXCEPT ![s] = "ret"] /\ res' = [res EXCEPT ![s] = "err"]
            ELSE pc' = [pc EXCEPT ![s] = "wantlock"] /\ UNCHANGED res
  /\ UNCHANGED <<osv, idx, lock, pending, closedSend, err, terminated, done, wif, stdinR, wof, rpartial, outClosed,
                 rpc, rmsg, rerr, seen, cpc, cop, cret, cops, inbox, aborted, exitFail, readPh, pipesClosed, pdone,
                 kpc, wpc, wres, regs, cbs, cblog, hist>>

Lock(s) ==
  /\ pc[s] = "wantlock" /\ lock = None
  /\ lock' = s /\ pc' = [pc EXCEPT ![s] = "locked"]
  /\ UNCHANGED <<osv, idx, res, pending, closedSend, err, terminated, done, wif, stdinR, wof, rpartial, outClosed,
                 rpc, rmsg, rerr, seen, cpc, cop, cret, cops, inbox, aborted, exitFail, readPh, pipesClosed, pdone,
                 kpc, wpc, wres, regs, cbs, cblog, hist>>

Register(s) ==
  /\ pc[s] = "locked"
  /\ IF closedSend
       THEN /\ pc' = [pc EXCEPT ![s] = "ret"] /\ res' = [res EXCEPT ![s] = "closed"] /\ lock' = None
            /\ UNCHANGED <<pending, wif, regs, cblog>>
       ELSE IF Cur(s) \in pending
       THEN /\ pc' = [pc EXCEPT ![s] = "ret"] /\ res' = [res EXCEPT ![s] = "dup"] /\ lock' = None
            /\ UNCHANGED <<pending, wif, regs, cblog>>
       ELSE /\ pending' = pending \cup {Cur(s)} /\ regs' = [regs EXCEPT ![Cur(s)] = @ + 1]
            /\ pc' = [pc EXCEPT ![s] = "writing"] /\ wif' = [s |-> s, n |-> Cur(s), ph |-> 1]
            /\ cblog' = Append(cblog, <<Cur(s), "reg", s, idx[s]>>)     \* whose callback is now registered under this name
            /\ UNCHANGED <<res, lock>>
  /\ UNCHANGED <<osv, idx, closedSend, err, terminated, done, stdinR, wof, rpartial, outClosed,
                 rpc, rmsg, rerr, seen, cpc, cop, cret, cops, inbox, aborted, exitFail, readPh, pipesClosed, pdone,
                 kpc, wpc, wres, cbs, hist>>

\* both writes were taken by the client
WriteDone(s) ==
  /\ pc[s] = "writing" /\ wif = NoW
  /\ pc' = [pc EXCEPT ![s] = "ret"] /\ res' = [res EXCEPT ![s] = "ok"] /\ lock' = None
  /\ UNCHANGED <<osv, idx, pending, closedSend, err, terminated, done, wif, stdinR, wof, rpartial, outClosed,
                 rpc, rmsg, rerr, seen, cpc, cop, cret, cops, inbox, aborted, exitFail, readPh, pipesClosed, pdone,
                 kpc, wpc, wres, regs, cbs, cblog, hist>>

\* a write fails because the client's read end was closed
WriteFail(s) ==
  /\ pc[s] = "writing" /\ wif # NoW /\ ~stdinR
  /\ wif' = NoW /\ lock' = None /\ pc' = [pc EXCEPT ![s] = "ret"]
  /\ IF Cur(s) \in pending
       THEN /\ pending' = pending \ {Cur(s)} /\ regs' = [regs EXCEPT ![Cur(s)] = @ - 1]
            /\ err' = TRUE /\ res' = [res EXCEPT ![s] = "err"]
       ELSE \* concurrently removed: the client got it, answered, and the reader dispatched it
            /\ res' = [res EXCEPT ![s] = "ok"] /\ UNCHANGED <<pending, regs, err>>
  /\ UNCHANGED <<osv, idx, closedSend, terminated, done, stdinR, wof, rpartial, outClosed,
                 rpc, rmsg, rerr, seen, cpc, cop, cret, cops, inbox, aborted, exitFail, readPh, pipesClosed, pdone,
                 kpc, wpc, wres, cbs, cblog, hist>>

SendRet(s) ==                       \* OBSERVABLE: sendRequest returned res[s]
  /\ pc[s] = "ret"
  /\ IF idx[s] < Len(Script[s]) THEN idx' = [idx EXCEPT ![s] = @ + 1] /\ pc' = [pc EXCEPT ![s] = "idle"]
                                ELSE idx' = idx /\ pc' = [pc EXCEPT ![s] = "fin"]
  /\ UNCHANGED <<osv, res, lock, pending, closedSend, err, terminated, done, wif, stdinR, wof, rpartial, outClosed,
                 rpc, rmsg, rerr, seen, cpc, cop, cret, cops, inbox, aborted, exitFail, readPh, pipesClosed, pdone,
                 kpc, wpc, wres, regs, cbs, cblog, hist>>

(* ------------------------------------------------------------------- client *)
CliIdle == cpc = "idle" /\ cops < MaxCliOps

ReadCall ==                         \* OBSERVABLE: the client starts reading the next chunk (prefix, body) of stdin
  /\ CliIdle
  /\ cpc' = "reading" /\ cops' = cops + 1
  /\ H(<<"R">>)
  /\ UNCHANGED <<osv, pc, idx, res, lock, pending, closedSend, err, terminated, done, wif, stdinR, wof, rpartial, outClosed,
                 rpc, rmsg, rerr, seen, cop, cret, inbox, aborted, exitFail, readPh, pipesClosed, pdone,
                 kpc, wpc, wres, regs, cbs, cblog>>

\* the exec layer's stdin copier takes the chunk a sender is writing.  While the child is there the
\* chunk lands in the OS pipe buffer; once the child is gone the copier's write fails and it ends
\* (the chunk is lost, though the sender's write of it has succeeded).
CopierTakes ==
  /\ copier = "run" /\ wif # NoW
  /\ IF gone
       THEN copier' = "dead" /\ UNCHANGED inbuf
       ELSE inbuf' = Append(inbuf, [n |-> wif.n, ph |-> wif.ph]) /\ UNCHANGED copier
  /\ wif' = IF wif.ph = 1 THEN [wif EXCEPT !.ph = 2] ELSE NoW
  /\ UNCHANGED <<pc, idx, res, lock, pending, closedSend, err, terminated, done, stdinR, wof, rpartial, outClosed,
                 gone, outbuf, outEOF, rpc, rmsg, rerr, seen, cpc, cop, cret, cops, inbox, aborted, exitFail, readPh, pipesClosed, pdone,
                 kpc, wpc, wres, regs, cbs, cblog, hist>>

\* the runner closed its end of stdin (closeSend): the copier forwards the end of input and ends
CopierSeesEOF ==
  /\ copier = "run" /\ wif = NoW /\ closedSend
  /\ copier' = "eof"
  /\ UNCHANGED <<pc, idx, res, lock, pending, closedSend, err, terminated, done, wif, stdinR, wof, rpartial, outClosed,
                 gone, inbuf, outbuf, outEOF, rpc, rmsg, rerr, seen, cpc, cop, cret, cops, inbox, aborted, exitFail, readPh, pipesClosed, pdone,
                 kpc, wpc, wres, regs, cbs, cblog, hist>>

\* the child reads the next chunk (prefix, body) from its stdin
ClientTakes ==
  /\ cpc = "reading" /\ inbuf # <<>>
  /\ inbuf' = Tail(inbuf)
  /\ IF Head(inbuf).ph = 1 THEN readPh' = 2 /\ UNCHANGED inbox
                            ELSE readPh' = 1 /\ inbox' = inbox \cup {Head(inbuf).n}
  /\ cpc' = "readdone" /\ cret' = "ok"
  /\ UNCHANGED <<pc, idx, res, lock, pending, closedSend, err, terminated, done, wif, stdinR, wof, rpartial, outClosed,
                 gone, copier, outbuf, outEOF, rpc, rmsg, rerr, seen, cop, cops, aborted, exitFail, pipesClosed, pdone,
                 kpc, wpc, wres, regs, cbs, cblog, hist>>

ClientSeesEOF ==
  /\ cpc = "reading" /\ inbuf = <<>> /\ copier = "eof"
  /\ cpc' = "readdone" /\ cret' = "eof"
  /\ UNCHANGED <<osv, pc, idx, res, lock, pending, closedSend, err, terminated, done, wif, stdinR, wof, rpartial, outClosed,
                 rpc, rmsg, rerr, seen, cop, cops, inbox, aborted, exitFail, readPh, pipesClosed, pdone,
                 kpc, wpc, wres, regs, cbs, cblog, hist>>

ReadRet ==                          \* OBSERVABLE: the read returned cret
  /\ cpc = "readdone"
  /\ cpc' = "idle"
  /\ UNCHANGED <<osv, pc, idx, res, lock, pending, closedSend, err, terminated, done, wif, stdinR, wof, rpartial, outClosed,
                 rpc, rmsg, rerr, seen, cop, cret, cops, inbox, aborted, exitFail, readPh, pipesClosed, pdone,
                 kpc, wpc, wres, regs, cbs, cblog, hist>>

\* what the client may write: an answer for a request it has (fully or partly) received, for a
\* name it never received ("zz"), a repeated answer, garbage, an oversized length, a truncated message
AnswerNames == Names \cup {"zz"}
WriteKinds == {"resp"} \cup FaultKinds

WriteCall(kind, n) ==               \* OBSERVABLE: the client starts writing to stdout
  /\ CliIdle
  /\ kind \in WriteKinds
  /\ (kind = "resp") => (n \in inbox \/ (AllowZZ /\ n = "zz") \/ (AllowEarly /\ inbuf # <<>> /\ Head(inbuf).n = n) \/ (AnyName /\ n \in Names))
  /\ (kind # "resp") => n = "-"
  /\ cpc' = "writing" /\ cops' = cops + 1 /\ outbuf' = Append(outbuf, [kind |-> kind, n |-> n]) /\ cop' = kind
  /\ H(<<"W", kind, n>>)
  /\ UNCHANGED <<gone, copier, inbuf, outEOF, wof, pc, idx, res, lock, pending, closedSend, err, terminated, done, wif, stdinR, rpartial, outClosed,
                 rpc, rmsg, rerr, seen, cret, inbox, aborted, exitFail, readPh, pipesClosed, pdone,
                 kpc, wpc, wres, regs, cbs, cblog>>

WriteRet ==                         \* OBSERVABLE: the write returned: taken by the reader, or given up (abort)
  /\ cpc = "writing"
  /\ cret' = "ok"                        \* the OS pipe buffers it: the child's write returns at once
  /\ cpc' = IF cop = "trunc" \/ cret' = "aborted" THEN "mustexit" ELSE "idle"
  /\ UNCHANGED <<osv, pc, idx, res, lock, pending, closedSend, err, terminated, done, wif, stdinR, wof, rpartial, outClosed,
                 rpc, rmsg, rerr, seen, cop, cops, inbox, aborted, exitFail, readPh, pipesClosed, pdone,
                 kpc, wpc, wres, regs, cbs, cblog, hist>>

Exit(fail) ==                       \* OBSERVABLE: the client function is about to return
  /\ cpc # "exited"                     \* an OS process can be killed (SIGTERM from abort) in the middle of an operation
  /\ cpc' = "exited" /\ exitFail' = fail
  /\ H(<<"X", fail>>)
  /\ UNCHANGED <<osv, pc, idx, res, lock, pending, closedSend, err, terminated, done, wif, stdinR, wof, rpartial, outClosed,
                 rpc, rmsg, rerr, seen, cop, cret, cops, inbox, aborted, readPh, pipesClosed, pdone,
                 kpc, wpc, wres, regs, cbs, cblog>>

\* the child, having announced its exit, really ends: the OS closes its ends of the pipes
ChildGone ==
  /\ cpc = "exited" /\ ~gone
  /\ gone' = TRUE
  /\ UNCHANGED <<copier, inbuf, outbuf, outEOF, pc, idx, res, lock, pending, closedSend, err, terminated, done, wif, stdinR, wof, rpartial, outClosed,
                 rpc, rmsg, rerr, seen, cpc, cop, cret, cops, inbox, aborted, exitFail, readPh, pipesClosed, pdone,
                 kpc, wpc, wres, regs, cbs, cblog, hist>>

(* ------------------------------------------------------------ exec layer, stdout side *)
StdoutCopierWrites ==
  /\ wof = NoO /\ outbuf # <<>> /\ ~outClosed
  /\ wof' = Head(outbuf) /\ outbuf' = Tail(outbuf)
  /\ UNCHANGED <<gone, copier, inbuf, outEOF, pc, idx, res, lock, pending, closedSend, err, terminated, done, wif, stdinR, rpartial, outClosed,
                 rpc, rmsg, rerr, seen, cpc, cop, cret, cops, inbox, aborted, exitFail, readPh, pipesClosed, pdone,
                 kpc, wpc, wres, regs, cbs, cblog, hist>>
\* child gone and everything it wrote was handed to the reader: the stdout copier is finished
StdoutCopierDone ==
  /\ gone /\ outbuf = <<>> /\ wof = NoO /\ ~outEOF
  /\ outEOF' = TRUE
  /\ UNCHANGED <<gone, copier, inbuf, outbuf, pc, idx, res, lock, pending, closedSend, err, terminated, done, wif, stdinR, wof, rpartial, outClosed,
                 rpc, rmsg, rerr, seen, cpc, cop, cret, cops, inbox, aborted, exitFail, readPh, pipesClosed, pdone,
                 kpc, wpc, wres, regs, cbs, cblog, hist>>
\* the reader stopped reading for good (failure): the copier's pending write can only end when the
\* pipes are torn down; the exec layer does that WaitDelay after the abort
StdoutCopierGivesUp ==
  /\ aborted /\ gone /\ ~outEOF /\ rpc \notin {"reading", "lookup", "dispatch"}
  /\ outEOF' = TRUE /\ outbuf' = <<>> /\ wof' = NoO
  /\ UNCHANGED <<gone, copier, inbuf, pc, idx, res, lock, pending, closedSend, err, terminated, done, wif, stdinR, rpartial, outClosed,
                 rpc, rmsg, rerr, seen, cpc, cop, cret, cops, inbox, aborted, exitFail, readPh, pipesClosed, pdone,
                 kpc, wpc, wres, regs, cbs, cblog, hist>>
\* after an abort the exec layer stops waiting for a stdin copier that is still blocked
StdinCopierGivesUp ==
  /\ aborted /\ gone /\ copier = "run"
  /\ copier' = "dead"
  /\ UNCHANGED <<gone, inbuf, outbuf, outEOF, pc, idx, res, lock, pending, closedSend, err, terminated, done, wif, stdinR, wof, rpartial, outClosed,
                 rpc, rmsg, rerr, seen, cpc, cop, cret, cops, inbox, aborted, exitFail, readPh, pipesClosed, pdone,
                 kpc, wpc, wres, regs, cbs, cblog, hist>>

(* ------------------------------------------------------------ process wrapper *)
\* cmd.Wait has returned (child gone, both copiers finished); the runner's ends are closed
ClosePipes ==
  /\ gone /\ ~pipesClosed /\ outEOF /\ copier \in {"dead", "eof"}
  /\ pipesClosed' = TRUE /\ stdinR' = FALSE /\ outClosed' = TRUE
  /\ UNCHANGED <<osv, pc, idx, res, lock, pending, closedSend, err, terminated, done, wif, wof, rpartial,
                 rpc, rmsg, rerr, seen, cpc, cop, cret, cops, inbox, aborted, exitFail, readPh, pdone,
                 kpc, wpc, wres, regs, cbs, cblog, hist>>

ProcDone ==                         \* completion signalled; the liveness flag is set
  /\ pipesClosed /\ ~pdone
  /\ pdone' = TRUE /\ terminated' = TRUE
  /\ UNCHANGED <<osv, pc, idx, res, lock, pending, closedSend, err, done, wif, stdinR, wof, rpartial, outClosed,
                 rpc, rmsg, rerr, seen, cpc, cop, cret, cops, inbox, aborted, exitFail, readPh, pipesClosed,
                 kpc, wpc, wres, regs, cbs, cblog, hist>>

(* ------------------------------------------------------------------- reader *)
\* the reader's blocking read returns: a whole message was taken from the pipe (the client's write
\* completes here), or the stream ended
Read ==
  /\ rpc = "reading"
  /\ \/ /\ wof # NoO
        /\ wof' = NoO
        /\ IF wof.kind = "trunc"
             THEN /\ rpartial' = TRUE /\ UNCHANGED <<rpc, rmsg, rerr>>
             ELSE IF wof.kind = "resp"
               THEN /\ rpc' = "lookup" /\ rmsg' = wof.n /\ UNCHANGED <<rerr, rpartial>>
               ELSE /\ rpc' = "failing" /\ rerr' = wof.kind /\ UNCHANGED <<rmsg, rpartial>>
     \/ /\ wof = NoO /\ outClosed
        /\ IF rpartial THEN rpc' = "failing" /\ rerr' = "truncated"
                       ELSE rpc' = "closing" /\ rerr' = "eof"
        /\ UNCHANGED <<wof, rmsg, rpartial>>
  /\ UNCHANGED <<osv, pc, idx, res, lock, pending, closedSend, err, terminated, done, wif, stdinR, outClosed, seen,
                 cpc, cop, cret, cops, inbox, aborted, exitFail, readPh, pipesClosed, pdone,
                 kpc, wpc, wres, regs, cbs, cblog, hist>>

\* the critical section on the pending set: find and remove the callback for the answered name
Lookup ==
  /\ rpc = "lookup"
  /\ IF rmsg \in pending
       THEN /\ pending' = pending \ {rmsg} /\ rpc' = "dispatch" /\ seen' = seen \cup {rmsg}
            /\ UNCHANGED <<rmsg, rerr>>
       ELSE /\ rpc' = "failing" /\ rerr' = (IF rmsg \in seen THEN "duplicate" ELSE "unknown") /\ rmsg' = None
            /\ UNCHANGED <<pending, seen>>
  /\ UNCHANGED <<osv, pc, idx, res, lock, closedSend, err, terminated, done, wif, stdinR, wof, rpartial, outClosed,
                 cpc, cop, cret, cops, inbox, aborted, exitFail, readPh, pipesClosed, pdone,
                 kpc, wpc, wres, regs, cbs, cblog, hist>>

\* the registration a callback for name n belongs to: the last one logged (a duplicate send is refused and registers nothing)
RECURSIVE LastReg(_, _)
LastReg(n, j) == IF j = 0 THEN <<None, 0>>
                 ELSE IF cblog[j][1] = n /\ cblog[j][2] = "reg" THEN <<cblog[j][3], cblog[j][4]>> ELSE LastReg(n, j - 1)
Owner(n) == LastReg(n, Len(cblog))

Cb ==                               \* OBSERVABLE: a completion callback runs (with a response / with an error)
  \/ /\ rpc = "dispatch"
     /\ cbs' = [cbs EXCEPT ![rmsg] = @ + 1] /\ cblog' = Append(cblog, <<rmsg, "resp", Owner(rmsg)[1], Owner(rmsg)[2]>>)
     /\ rpc' = "reading" /\ rmsg' = None
     /\ UNCHANGED <<pending, done>>
  \/ /\ rpc = "draining" /\ pending # {}
     /\ \E n \in pending :
          /\ pending' = pending \ {n}
          /\ cbs' = [cbs EXCEPT ![n] = @ + 1] /\ cblog' = Append(cblog, <<n, "err", Owner(n)[1], Owner(n)[2]>>)
     /\ UNCHANGED <<rpc, rmsg, done>>

CbStep == /\ Cb
          /\ UNCHANGED <<osv, pc, idx, res, lock, closedSend, err, terminated, wif, stdinR, wof, rpartial, outClosed,
                         rerr, seen, cpc, cop, cret, cops, inbox, aborted, exitFail, readPh, pipesClosed, pdone,
                         kpc, wpc, wres, regs, hist>>

Fail ==
  /\ rpc = "failing"
  /\ err' = TRUE /\ terminated' = TRUE /\ aborted' = TRUE /\ rpc' = "closing"
  /\ UNCHANGED <<osv, pc, idx, res, lock, pending, closedSend, done, wif, stdinR, wof, rpartial, outClosed,
                 rmsg, rerr, seen, cpc, cop, cret, cops, inbox, exitFail, readPh, pipesClosed, pdone,
                 kpc, wpc, wres, regs, cbs, cblog, hist>>

CloseSendByReader ==
  /\ rpc = "closing" /\ lock = None
  /\ closedSend' = TRUE /\ rpc' = "draining"
  /\ UNCHANGED <<osv, pc, idx, res, lock, pending, err, terminated, done, wif, stdinR, wof, rpartial, outClosed,
                 rmsg, rerr, seen, cpc, cop, cret, cops, inbox, aborted, exitFail, readPh, pipesClosed, pdone,
                 kpc, wpc, wres, regs, cbs, cblog, hist>>

ReaderDone ==
  /\ rpc = "draining" /\ pending = {}
  /\ rpc' = "done" /\ done' = TRUE
  /\ UNCHANGED <<osv, pc, idx, res, lock, pending, closedSend, err, terminated, wif, stdinR, wof, rpartial, outClosed,
                 rmsg, rerr, seen, cpc, cop, cret, cops, inbox, aborted, exitFail, readPh, pipesClosed, pdone,
                 kpc, wpc, wres, regs, cbs, cblog, hist>>

(* ------------------------------------------------------------ closer, waiter *)
CloseCall ==                        \* OBSERVABLE (issued once all senders are through, as run() does)
  /\ kpc = "idle" /\ SendersDone
  /\ kpc' = "called"
  /\ UNCHANGED <<osv, pc, idx, res, lock, pending, closedSend, err, terminated, done, wif, stdinR, wof, rpartial, outClosed,
                 rpc, rmsg, rerr, seen, cpc, cop, cret, cops, inbox, aborted, exitFail, readPh, pipesClosed, pdone,
                 wpc, wres, regs, cbs, cblog, hist>>
CloseDo ==
  /\ kpc = "called" /\ lock = None
  /\ closedSend' = TRUE /\ kpc' = "did"
  /\ UNCHANGED <<osv, pc, idx, res, lock, pending, err, terminated, done, wif, stdinR, wof, rpartial, outClosed,
                 rpc, rmsg, rerr, seen, cpc, cop, cret, cops, inbox, aborted, exitFail, readPh, pipesClosed, pdone,
                 wpc, wres, regs, cbs, cblog, hist>>
CloseRet ==                         \* OBSERVABLE
  /\ kpc = "did" /\ kpc' = "ret"
  /\ UNCHANGED <<osv, pc, idx, res, lock, pending, closedSend, err, terminated, done, wif, stdinR, wof, rpartial, outClosed,
                 rpc, rmsg, rerr, seen, cpc, cop, cret, cops, inbox, aborted, exitFail, readPh, pipesClosed, pdone,
                 wpc, wres, regs, cbs, cblog, hist>>

WaitCall ==                         \* OBSERVABLE
  /\ wpc = "idle" /\ kpc = "ret"
  /\ wpc' = "called"
  /\ UNCHANGED <<osv, pc, idx, res, lock, pending, closedSend, err, terminated, done, wif, stdinR, wof, rpartial, outClosed,
                 rpc, rmsg, rerr, seen, cpc, cop, cret, cops, inbox, aborted, exitFail, readPh, pipesClosed, pdone,
                 kpc, wres, regs, cbs, cblog, hist>>
WaitDone ==
  /\ wpc = "called" /\ done /\ pdone
  /\ wpc' = "did" /\ wres' = IF err \/ exitFail THEN "err" ELSE "nil"
  /\ UNCHANGED <<osv, pc, idx, res, lock, pending, closedSend, err, terminated, done, wif, stdinR, wof, rpartial, outClosed,
                 rpc, rmsg, rerr, seen, cpc, cop, cret, cops, inbox, aborted, exitFail, readPh, pipesClosed, pdone,
                 kpc, regs, cbs, cblog, hist>>
WaitRet ==                          \* OBSERVABLE
  /\ wpc = "did" /\ wpc' = "ret"
  /\ UNCHANGED <<osv, pc, idx, res, lock, pending, closedSend, err, terminated, done, wif, stdinR, wof, rpartial, outClosed,
                 rpc, rmsg, rerr, seen, cpc, cop, cret, cops, inbox, aborted, exitFail, readPh, pipesClosed, pdone,
                 kpc, wres, regs, cbs, cblog, hist>>

(* ------------------------------------------------------------------ system *)
Internal == \/ \E s \in Senders : CheckErr(s) \/ Lock(s) \/ Register(s) \/ WriteDone(s) \/ WriteFail(s)
            \/ ChildGone \/ CopierTakes \/ CopierSeesEOF \/ StdoutCopierWrites \/ StdoutCopierDone \/ StdoutCopierGivesUp \/ StdinCopierGivesUp
            \/ ClientTakes \/ ClientSeesEOF \/ ClosePipes \/ ProcDone
            \/ Read \/ Lookup \/ Fail \/ CloseSendByReader \/ ReaderDone \/ CloseDo \/ WaitDone

Observable == \/ \E s \in Senders : SendCall(s) \/ SendRet(s)
              \/ ReadCall \/ ReadRet
              \/ (\E k \in WriteKinds : \E n \in AnswerNames \cup {"-"} : WriteCall(k, n)) \/ WriteRet
              \/ (\E f \in BOOLEAN : Exit(f))
              \/ CbStep \/ CloseCall \/ CloseRet \/ WaitCall \/ WaitRet

\* explicit stuttering at the quiescent end so that TLC's deadlock check finds real hangs only
Finished == SendersDone /\ wpc = "ret" /\ cpc = "exited" /\ UNCHANGED vars
Next == Internal \/ Observable \/ Finished

\* fairness: every runner-side step, the pipes, and "the client eventually ends" (a conformant
\* client exits when its stdin ends or its context is cancelled)
Fair == /\ \A s \in Senders : WF_vars(SendCall(s)) /\ WF_vars(CheckErr(s)) /\ WF_vars(Lock(s)) /\ WF_vars(Register(s))
                              /\ WF_vars(WriteDone(s)) /\ WF_vars(WriteFail(s)) /\ WF_vars(SendRet(s))
        /\ WF_vars(ClientTakes) /\ WF_vars(ClientSeesEOF) /\ WF_vars(ReadRet) /\ WF_vars(WriteRet)
        /\ WF_vars(ChildGone) /\ WF_vars(CopierTakes) /\ WF_vars(CopierSeesEOF) /\ WF_vars(StdoutCopierWrites) /\ WF_vars(StdoutCopierDone)
        /\ WF_vars(StdoutCopierGivesUp) /\ WF_vars(StdinCopierGivesUp)
        /\ WF_vars(ClosePipes) /\ WF_vars(ProcDone)
        /\ WF_vars(Read) /\ WF_vars(Lookup) /\ WF_vars(CbStep) /\ WF_vars(Fail) /\ WF_vars(CloseSendByReader) /\ WF_vars(ReaderDone)
        /\ WF_vars(CloseCall) /\ WF_vars(CloseDo) /\ WF_vars(CloseRet) /\ WF_vars(WaitCall) /\ WF_vars(WaitDone) /\ WF_vars(WaitRet)
        /\ WF_vars(Exit(FALSE))
Spec == Init /\ [][Next]_vars /\ Fair

(* -------------------------------------------------------------- properties *)
TypeOK == /\ lock \in Senders \cup {None}
          /\ pending \subseteq Names
          /\ \A s \in Senders : pc[s] \in {"idle", "called", "wantlock", "locked", "writing", "ret", "fin"}

\* exactly once: never more callbacks than accepted registrations ...
AtMostOnce == \A n \in Names : cbs[n] <= regs[n]
\* ... and once everything is quiet, exactly as many
Quiescent == SendersDone /\ wpc = "ret"
ExactlyOnceAtEnd == Quiescent => \A n \in Names : cbs[n] = regs[n] /\ pending = {}
\* a callback that carries a response carries the response of a request that was pending under that name
OwnResponse == \A i \in 1..Len(cblog) : cblog[i][2] = "resp" => cblog[i][1] \in seen
\* a request that was refused never gets a callback: regs counts only accepted ones (by construction);
\* lock discipline: the reader never waits for the send lock while holding the pending lock (pending
\* updates are single atomic actions here, so it suffices that CloseSendByReader is not needed for Read)
\* once failed or closed, no later send is accepted
RefusedAfterFailure ==
  [][\A s \in Senders : (pc[s] = "called" /\ (err \/ closedSend) /\ pc'[s] = "ret") => res'[s] # "ok"]_vars
SendsRefused == \A s \in Senders : (pc[s] = "locked" /\ closedSend) => TRUE
\* liveness
Terminates == <>(wpc = "ret")
EventuallyNotRunning == <>[](terminated)
SendersFinish == <>SendersDone
NoStuckCallback == [](\A n \in Names : (n \in pending) => <>(n \notin pending))

ViewNoHist == <<gone, copier, inbuf, outbuf, outEOF, pc, idx, res, lock, pending, closedSend, err, terminated, done, wif, stdinR, wof, rpartial, outClosed,
                rpc, rmsg, rerr, seen, cpc, cop, cret, cops, inbox, aborted, exitFail, readPh, pipesClosed, pdone,
                kpc, wpc, wres, regs, cbs>>
=============================================================================
