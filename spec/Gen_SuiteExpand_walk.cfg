\* random walks (-simulate) over the whole pools: up to 3 suites, up to 8 tests, any relevance shape, any flags
CONSTANTS
  RunModes = {}
  CaseSets = {}
  MaxSuites = 3
  SNames = {}
  SModes = {}
  RelPs = {}
  RelVs = {}
  RelCs = {}
  RelZs = {}
  Flags = {}
  Cvms = {}
  TestIdx = {}
  TestLens = {}
  SNames2 = {}
  SModes2 = {}
  RelPs2 = {}
  RelVs2 = {}
  RelCs2 = {}
  RelZs2 = {}
  Flags2 = {}
  Cvms2 = {}
  TestIdx2 = {}
  TestLens2 = {}
  MaxRestricted = 4
INIT WalkInit
NEXT WalkNext
INVARIANTS Emit
