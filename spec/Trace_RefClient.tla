---------------------------- MODULE Trace_RefClient ----------------------------
(* code -> spec binding for RefClient: each line is the event log of one real execution of
   referenceclient.Run against the gate server; accepted iff some interleaving of the client's
   (silent) steps explains the observable events in order. *)
EXTENDS RefClient, Json, IOUtils
Recs == ndJsonDeserialize(IOEnv.VERIF_TRACE)
VARIABLES ti, l
Evs == Recs[ti].events
Ev == Evs[l]
TInit == Init /\ ti \in 1..Len(Recs) /\ l = 1
TNext ==
  \/ Internal /\ UNCHANGED <<ti, l>>
  \/ /\ l <= Len(Evs) /\ l' = l + 1 /\ ti' = ti
     /\ \/ Ev.e = "OfferCall" /\ OfferCall
        \/ Ev.e = "OfferRet" /\ OfferRet(Ev.ok)
        \/ Ev.e = "Arrive" /\ Arrive(Ev.i)
        \/ Ev.e = "Answer" /\ Answer(Ev.i)
        \/ Ev.e = "DrainCall" /\ DrainCall
        \/ Ev.e = "DrainRet" /\ DrainRet(Ev.i)
        \/ Ev.e = "CloseStdin" /\ CloseStdin
        \/ Ev.e = "CloseStdout" /\ CloseStdout
        \/ Ev.e = "RunRet" /\ RunRet(Ev.r)
Accepted == (l = Len(Evs) + 1) => PrintT("ACCEPT " \o ToString(ti))
=============================================================================
