------------------------------ MODULE RawHTTPEnc ------------------------------
(* C17 - the stream body encoder (internal/raw_http_body.go, WriteRawStreamContents with
   WriteRawMessageContents inside) as a machine over abstract bytes, one action per write call of
   the loop:

     item with an explicit length : Write(prefix) ; payload compressed straight onto the sink
                                    (compressor Reset(sink) / Write / Close)
     item without a length        : payload compressed into a buffer ; Write(prefix with the buffer
                                    length) ; buffer copied to the sink

   The sink is a plain writer ("buffer": bytes.Buffer, http.ResponseWriter) or a closable one
   ("pipe": the *io.PipeWriter of rawRequestSender).  Closing a compressor must not close the sink;
   AdoptClose = TRUE is the behaviour builder C20 found for the identity compressor (it adopts the
   Close of an io.WriteCloser sink), kept here so that TLC shows the consequence for C17.

   Theorems (TLC, AdoptClose = FALSE): for every item sequence and sink kind the machine ends
   without error with sink = StreamBytes(items) - the declarative byte string -, and the byte string
   is invertible (RawHTTPDecl!Invertible) whenever every explicit length is the actual one. *)
EXTENDS RawHTTPDecl, TLC

CONSTANTS MaxItems, FlagSet, LenSet, PSet, ZSet, SinkKinds, AdoptClose

VARIABLES items, kind, i, pc, sink, open, buf, err
vars == <<items, kind, i, pc, sink, open, buf, err>>

\* any size function will do; compressed forms have their own sizes (a compressed empty payload is not empty)
Base(p) == CASE p = "empty" -> 0 [] p = "a" -> 1 [] p = "bb" -> 2 [] OTHER -> 0
Sz == [zp \in (1..6) \X PSet |-> Base(zp[2]) + (IF zp[1] = 1 THEN 0 ELSE 1)]

Msgs  == {[p |-> p, z |-> z] : p \in PSet, z \in ZSet}
Items == {[flags |-> f, hasLen |-> hl, nlen |-> n, m |-> m] :
             f \in FlagSet, hl \in BOOLEAN, n \in LenSet, m \in Msgs}
\* normal form: an absent length carries nlen = 0
NItems == {it \in Items : ~it.hasLen => it.nlen = 0}

Init == /\ items \in UNION {[1..n -> NItems] : n \in 0..MaxItems}
        /\ kind \in SinkKinds
        /\ i = 1 /\ pc = "top" /\ sink = <<>> /\ open = TRUE /\ buf = <<>> /\ err = "none"

Cur == items[i]
Pfx(n) == <<[b |-> "F", v |-> Cur.flags], [b |-> "L", v |-> n]>>

\* a Write on the sink: fails once the sink has been closed
SinkWrite(bs, nextpc) ==
  IF open THEN /\ sink' = sink \o bs /\ pc' = nextpc /\ err' = err
          ELSE /\ sink' = sink /\ pc' = "failed" /\ err' = "closed sink"

Top == /\ pc = "top"
       /\ IF i > Len(items) THEN pc' = "done" /\ err' = err
          ELSE IF Cur.flags > 255 THEN pc' = "failed" /\ err' = "flags out of range"
          ELSE pc' = (IF Cur.hasLen THEN "direct-prefix" ELSE "buffer-payload") /\ err' = err
       /\ UNCHANGED <<items, kind, i, sink, open, buf>>

DirectPrefix == /\ pc = "direct-prefix"
                /\ SinkWrite(Pfx(Cur.nlen), "direct-payload")
                /\ UNCHANGED <<items, kind, i, open, buf>>

\* WriteRawMessageContents(payload, sink): nothing at all for contents without data; otherwise
\* Reset(sink), Write, Close - and Close closes the sink only under AdoptClose
DirectPayload ==
  /\ pc = "direct-payload"
  /\ IF Cur.m.p \in {"absent", "nil"}
       THEN /\ pc' = "next" /\ UNCHANGED <<sink, open, err>>
       ELSE /\ SinkWrite(DataBytes(Cur.m, Sz), "next")
            /\ open' = IF AdoptClose /\ kind = "pipe" /\ ZNorm(Cur.m.z) = 1 THEN FALSE ELSE open
  /\ UNCHANGED <<items, kind, i, buf>>

BufferPayload == /\ pc = "buffer-payload"
                 /\ buf' = DataBytes(Cur.m, Sz)          \* a bytes.Buffer is not closable
                 /\ pc' = "buffer-prefix"
                 /\ UNCHANGED <<items, kind, i, sink, open, err>>
BufferPrefix == /\ pc = "buffer-prefix"
                /\ SinkWrite(Pfx(Len(buf)), "buffer-copy")
                /\ UNCHANGED <<items, kind, i, open, buf>>
BufferCopy == /\ pc = "buffer-copy"
              /\ SinkWrite(buf, "next")
              /\ buf' = <<>>
              /\ UNCHANGED <<items, kind, i, open>>

NextItem == /\ pc = "next" /\ i' = i + 1 /\ pc' = "top"
            /\ UNCHANGED <<items, kind, sink, open, buf, err>>

Next == Top \/ DirectPrefix \/ DirectPayload \/ BufferPayload \/ BufferPrefix \/ BufferCopy \/ NextItem
Spec == Init /\ [][Next]_vars /\ WF_vars(Next)

(* ------------------------------ theorems ------------------------------ *)
InRange == \A j \in 1..Len(items) : items[j].flags <= 255
FirstBad == CHOOSE j \in 1..Len(items) : items[j].flags > 255 /\ \A l \in 1..(j - 1) : items[l].flags <= 255

\* the encoder writes exactly the declarative byte string - on any sink
Exact == (pc = "done") => (err = "none" /\ sink = StreamBytes(items, Sz))
\* it can only fail on a flags value outside 0..255, after having written the items before it
OnlyRangeErrors == (pc = "failed") =>
                      /\ ~InRange /\ err = "flags out of range"
                      /\ sink = StreamBytes(SubSeq(items, 1, FirstBad - 1), Sz)
\* the sink is never closed by the encoder
SinkStaysOpen == open
\* decoding what was written returns the items that were specified
RoundTrip == (pc = "done" /\ Aligned(items, Sz)) => Invertible(items, Sz)
\* ... and with a wrong explicit length it does not (the law is not vacuous): some item differs
Misaligned == (pc = "done" /\ ~Aligned(items, Sz) /\ InRange) => ~Invertible(items, Sz)
Prefixes == sink = SubSeq(StreamBytes(items, Sz), 1, Len(sink))      \* only ever a prefix of the target
Terminates == <>(pc \in {"done", "failed"})
=============================================================================
