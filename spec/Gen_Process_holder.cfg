CONSTANTS
  Kind = "holder"
  Callbacks = {"c1", "c2"}
  MaxAborts = 2
INIT Init
NEXT Next
INVARIANTS DoneOnce ResultStable Emit

