---------------------------- MODULE ConvertCodec ----------------------------
(* C18 - the strict message codecs (StrictProtoCodec, StrictJSONCodec).

   A conformance message is a tree of present fields over Schema (ConvertDecl); its encoding in
   format c is the same tree tagged c; the adversary may inject ONE unknown field (of any wire
   kind) at the first or last position of ANY message node of the tree - top level or nested.

   Declarative meaning  : Marshal / Unmarshal (ConvertDecl): a codec writes its own format and
                          reads it back to the same message; an unknown field anywhere is an
                          error, never silently dropped or kept.
   Operational machine  : a strict decoder walking the encoded tree, one action per message node
                          (the recursion the real decoder performs over nested messages).
   Theorems checked by TLC: Agrees (walk == declarative verdict), RoundTrip, Rejects, OwnFormat. *)
EXTENDS ConvertDecl, TLC

CONSTANTS Codecs,       \* subset of {"proto", "json"}
          Top,          \* top-level message type of Schema
          Depth,        \* nesting depth of the generated messages
          MaxRep,       \* elements per repeated field (1 or 2)
          ProtoKinds,   \* wire kinds of the injected unknown field, binary format
          JsonKinds     \* value kinds of the injected unknown key, JSON format

VARIABLES c, m, inj,    \* scenario: codec, message, injection
          wire,         \* the encoded input handed to Unmarshal
          pc, work, verdict

vars == <<c, m, inj, wire, pc, work, verdict>>

NoInj == [on |-> FALSE, p |-> <<>>, pos |-> 0, kind |-> "none"]
Kinds(cc) == IF cc = "proto" THEN ProtoKinds ELSE JsonKinds
Injs(cc, msg) == {NoInj} \cup UNION {{[on |-> TRUE, p |-> p, pos |-> pos, kind |-> k] :
                                          pos \in {0, Len(NodeAt(msg, p).ents)}, k \in Kinds(cc)} : p \in Paths(msg)}
Encode(cc, msg, ij) == IF ij.on THEN [fmt |-> cc, body |-> Inject(msg, ij.p, ij.pos, Unk(ij.kind))]
                       ELSE Marshal(cc, msg)

Init == /\ c \in Codecs /\ m \in MsgsOf(Top, Depth, MaxRep) /\ inj \in Injs(c, m)
        /\ wire = Encode(c, m, inj)
        /\ pc = "walk" /\ work = <<wire.body>> /\ verdict = "?"

\* visit one message node: any unknown entry in it -> reject; else descend into its sub-messages
Visit == /\ pc = "walk" /\ work # <<>>
         /\ LET n == Head(work)
                kids == [x \in 1..Len(n.ents) |-> n.ents[x].kid]
            IN IF \E x \in 1..Len(n.ents) : n.ents[x].f = "?"
                 THEN /\ verdict' = "reject" /\ pc' = "done" /\ work' = <<>>
                 ELSE /\ work' = SelectSeq(kids, LAMBDA k : k.t # "-") \o Tail(work)
                      /\ UNCHANGED <<verdict, pc>>
         /\ UNCHANGED <<c, m, inj, wire>>
Accept == /\ pc = "walk" /\ work = <<>>
          /\ verdict' = "ok" /\ pc' = "done"
          /\ UNCHANGED <<c, m, inj, wire, work>>

Next == Visit \/ Accept
Spec == Init /\ [][Next]_vars /\ WF_vars(Next)

Agrees    == (pc = "done") => verdict = Unmarshal(c, wire).r
RoundTrip == (pc = "done" /\ ~inj.on) => Unmarshal(c, Marshal(c, m)) = [r |-> "ok", m |-> m]
Rejects   == (pc = "done" /\ inj.on) => verdict = "reject" /\ Unmarshal(c, wire).r = "reject"
OwnFormat == \A c2 \in Codecs : (c2 # c) => Unmarshal(c2, Marshal(c, m)).r = "reject"
\* the injected tree differs from the message exactly by the one unknown entry
OneMore   == inj.on => /\ HasUnknown(wire.body) /\ ~HasUnknown(m)
                       /\ Len(NodeAt(wire.body, inj.p).ents) = Len(NodeAt(m, inj.p).ents) + 1
TypeOK == pc \in {"walk", "done"} /\ verdict \in {"?", "ok", "reject"}
Terminates == <>(pc = "done")
=============================================================================
