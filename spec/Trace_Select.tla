---------------------------- MODULE Trace_Select ----------------------------
(* code -> spec binding for C05, reference mode: one line per real run() with the reference client
   and server (and the grpc-go peers, whose permutations carry marked names) in process.
     names     all permutations of the run, marked ones included (each a sequence of components)
     run, skip the --run / --skip patterns (sequences of components)
     outcomes  the permutations that ended with an outcome
   Accepted iff the outcomes are exactly the permutations GlobDecl's Selected picks among the names:
   "every selected permutation is handed to a client exactly once ... gRPC-peer permutations are
   issued ... under their marked names" - a pattern that names a marker selects (or skips) exactly
   the marked permutations, a full unmarked name selects that permutation only. *)
EXTENDS GlobDecl, Json, TLC, IOUtils

Rec == ndJsonDeserialize(IOEnv.VERIF_TRACE)

VARIABLE l

Accept(r) == Range(r.outcomes) = SelectedSet(Range(r.names), Range(r.run), Range(r.skip))

TraceInit == l = 1
TraceNext == /\ l <= Len(Rec)
             /\ l' = l + 1
             /\ (Accept(Rec[l]) \/ PrintT("REJECT " \o ToString(l)))
TraceSpec == TraceInit /\ [][TraceNext]_l
Consumed == (l = Len(Rec) + 1) => PrintT("CONSUMED " \o ToString(Len(Rec)))
=============================================================================
