---------------------------- MODULE Trace_Select ----------------------------
(* code -> spec binding for C05, reference mode: one line per real run() with the reference client
   and server (and the grpc-go peers, whose permutations carry marked names) in process.
     names     all permutations of the run, marked ones included (each a sequence of components)
     run, skip the --run / --skip patterns (sequences of components)
     outcomes  the permutations that ended with an outcome
   Accepted iff the outcomes are exactly the permutations GlobDecl's Selected picks among the names:
   "every selected permutation is handed to a client exactly once ... gRPC-peer permutations are
   issued ... under their marked names" - a pattern that names a marker selects (or skips) exactly
   the marked permutations, a full unmarked name selects that permutation only. *)
EXTENDS GlobDecl, Json, TLC, IOUtils

Rec == ndJsonDeserialize(IOEnv.VERIF_TRACE)

VARIABLE l

\* setup: permutations recorded as setup failures.  With healthy reference peers there are none - in particular
\* when all servers must share one port with --max-servers 1 ("never more than --max-servers server processes
\* are alive at once": a second one could not bind).
Accept(r) == /\ Range(r.outcomes) = SelectedSet(Range(r.names), Range(r.run), Range(r.skip))
             /\ r.setup = <<>>

TraceInit == l = 1
TraceNext == /\ l <= Len(Rec)
             /\ l' = l + 1
             /\ (Accept(Rec[l]) \/ PrintT("REJECT " \o ToString(l)))
TraceSpec == TraceInit /\ [][TraceNext]_l
Consumed == (l = Len(Rec) + 1) => PrintT("CONSUMED " \o ToString(Len(Rec)))
=============================================================================
