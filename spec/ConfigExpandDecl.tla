-------------------------- MODULE ConfigExpandDecl --------------------------
(* C06 - declarative meaning of a conformance configuration file.

   Transcribed from proto/connectrpc/conformance/v1/config.proto (comments of Config, Features,
   ConfigCase) and docs/configuring_and_running_tests.md ("Configuration Files", "Features",
   "Config Cases"), NOT from config.go.  Constant-level operators only; shared by the design
   check (ConfigExpand), the behaviour generator (Gen_ConfigExpand) and the acceptor of recorded
   executions (Trace_ConfigExpand).

   A configuration is  [f |-> features, inc |-> <<entry,...>>, exc |-> <<entry,...>>].
   Its meaning is either a rejection or the set

        ( FeatureCases(F)  \cup  UNION EntryCases(F, include_i) )  \  UNION EntryCases(F, exclude_j)

   where F are the defaulted features and an omitted field of an entry ranges over what F supports. *)
EXTENDS Naturals, Sequences, FiniteSets, FiniteSetsExt

CONSTANT NZ          \* number of compression algorithms in the domain (the enum has 6)

(* ------------------------------- the domain ------------------------------- *)
H1 == 1  H2 == 2  H3 == 3                         \* HTTP_VERSION_1/2/3
CONNECT == 1  GRPC == 2  GRPCWEB == 3             \* PROTOCOL_*
PROTO == 1  JSON == 2  TEXT == 3                  \* CODEC_* ; TEXT is deprecated: "not used; will be ignored"
UNARY == 1  CLIENTS == 2  SERVERS == 3  HALFDUP == 4  FULLDUP == 5      \* STREAM_TYPE_*

Versions     == 1..3
Protocols    == 1..3
CodecsAll    == 1..3                              \* what a file may mention
Codecs       == 1..2                              \* what a case can use
Compressions == 1..NZ                             \* IDENTITY, GZIP, BR, ZSTD, DEFLATE, SNAPPY
StreamTypes  == 1..5
Tri          == {"unset", "true", "false"}        \* an `optional bool` of the file

\* Features as written in the file.  Repeated fields are read as sets (order and repetition of a
\* repeated enum field carry no meaning in the documents).
FeaturesDom == [vs : SUBSET Versions, ps : SUBSET Protocols, cs : SUBSET CodecsAll,
                zs : SUBSET Compressions, ss : SUBSET StreamTypes,
                h2c : Tri, tls : Tri, certs : Tri, trailers : Tri, hdh1 : Tri, get : Tri, lim : Tri]

\* A ConfigCase entry as written in the file; 0 / "unset" = field omitted (a wildcard).
EntryDom == [v : 0..3, p : 0..3, c : 0..3, z : 0..NZ, s : 0..5, tls : Tri, cert : Tri, lim : Tri]
AnyEntry == [v |-> 0, p |-> 0, c |-> 0, z |-> 0, s |-> 0, tls |-> "unset", cert |-> "unset", lim |-> "unset"]

\* A resolved config case ("each cell in the table is a config case").
Case == [v : Versions, p : Protocols, c : Codecs, z : Compressions, s : StreamTypes,
         tls : BOOLEAN, cert : BOOLEAN, get : BOOLEAN, lim : BOOLEAN]

(* ------------------------------- features ------------------------------- *)
\* "If absent, true is assumed" (h2c, tls, trailers, connect_get, message_receive_limit);
\* "If absent, false is assumed" (tls_client_certs, half_duplex_bidi_over_http1).
Flag(t, default) == IF t = "unset" THEN default ELSE t = "true"

Flags(f) == [h2c      |-> Flag(f.h2c, TRUE),      tls  |-> Flag(f.tls, TRUE),
             certs    |-> Flag(f.certs, FALSE),   hdh1 |-> Flag(f.hdh1, FALSE),
             trailers |-> Flag(f.trailers, TRUE), get  |-> Flag(f.get, TRUE),
             lim      |-> Flag(f.lim, TRUE)]

\* What the documents say an implementation with flags g can support at all:
\*  "HTTP/3 requires TLS";  "If TLS is not supported, HTTP/3 cannot be supported and HTTP/2 can
\*   only be supported if the implementation supports H2C."
VersionFeasible(v, g) == CASE v = H1 -> TRUE
                           [] v = H2 -> g.tls \/ g.h2c
                           [] v = H3 -> g.tls
\*  "gRPC requires HTTP/2";  supports_trailers: "If false, then the gRPC protocol cannot be supported."
ProtocolFeasible(p, vs, g) == (p = GRPC) => (g.trailers /\ H2 \in vs)
\*  full-duplex "requires HTTP/2 or HTTP/3";  supports_half_duplex_bidi_over_http1: "If false,
\*   bidirectional streams (regardless of whether they are half- or full-duplex) are only
\*   supported over HTTP/2 or HTTP/3."
StreamFeasible(s, vs, g) == CASE s = FULLDUP -> vs \ {H1} # {}
                              [] s = HALFDUP -> (vs \ {H1} # {}) \/ g.hdh1
                              [] OTHER      -> TRUE

\* Defaults of omitted axes: the documented default set ("HTTP 1.1 and HTTP/2", "all three",
\* "proto and json", "identity and gzip", "all stream types"), restricted to what is feasible under
\* the other features - the property statement: "versions depend on TLS/H2C, protocols on
\* trailers and HTTP/2, stream types on versions".  An *assumed* value never contradicts a
\* *declared* one (theorem DefaultsNeverContradict in ConfigExpand).
DefaultVersions(g)      == {v \in {H1, H2} : VersionFeasible(v, g)}
DefaultProtocols(vs, g) == {p \in Protocols : ProtocolFeasible(p, vs, g)}
DefaultCodecs           == {PROTO, JSON}
DefaultCompressions     == {1, 2}
DefaultStreams(vs, g)   == {s \in StreamTypes : StreamFeasible(s, vs, g)}

OrDefault(S, D) == IF S = {} THEN D ELSE S

Resolve(f) ==
  LET g  == Flags(f)
      vs == OrDefault(f.vs, DefaultVersions(g))
  IN [vs |-> vs,
      ps |-> OrDefault(f.ps, DefaultProtocols(vs, g)),
      cs |-> OrDefault(f.cs, DefaultCodecs),
      zs |-> OrDefault(f.zs, DefaultCompressions),
      ss |-> OrDefault(f.ss, DefaultStreams(vs, g)),
      h2c |-> g.h2c, tls |-> g.tls, certs |-> g.certs, trailers |-> g.trailers,
      hdh1 |-> g.hdh1, get |-> g.get, lim |-> g.lim]

\* Contradictory features: something the file *declares* is infeasible under the rest of what it
\* declares or defaults.  Each element is the name of one documented rule that is broken.
When(cond, name) == IF cond THEN {name} ELSE {}

FeatErrs(f) ==
  LET F == Resolve(f) IN
       When(F.certs /\ ~F.tls,                                   "certs-without-tls")      \* "should not be set if supports_tls is false"
  \cup When(H3 \in F.vs /\ ~VersionFeasible(H3, F),               "h3-without-tls")
  \cup When(H2 \in F.vs /\ ~VersionFeasible(H2, F),               "h2-without-tls-or-h2c")
  \cup When(f.h2c = "true" /\ H2 \notin F.vs,                     "h2c-without-h2")         \* H2C *is* HTTP/2 over clear text
  \cup When(GRPC \in F.ps /\ ~F.trailers,                         "grpc-without-trailers")
  \cup When(GRPC \in F.ps /\ H2 \notin F.vs,                      "grpc-without-h2")
  \cup When(FULLDUP \in F.ss /\ ~StreamFeasible(FULLDUP, F.vs, F), "fullduplex-h1-only")
  \cup When(HALFDUP \in F.ss /\ ~StreamFeasible(HALFDUP, F.vs, F), "halfduplex-h1-only")

(* ------------------------------- cases ------------------------------- *)
\* "Every resulting case is internally possible" (the seven clauses of the property statement).
Possible(c, F) ==
  /\ (c.p = GRPC) => (c.v = H2)                      \* gRPC only over HTTP/2
  /\ (c.v = H3) => c.tls                             \* HTTP/3 only with TLS
  /\ (c.v = H2 /\ ~c.tls) => F.h2c                   \* cleartext HTTP/2 only with H2C support
  /\ c.cert => c.tls                                 \* client certificates only with TLS
  /\ (c.s = FULLDUP) => (c.v # H1)                   \* no full-duplex over HTTP/1.1
  /\ (c.s = HALFDUP /\ c.v = H1) => F.hdh1           \* half-duplex over HTTP/1.1 only if declared
  /\ c.get => (c.p = CONNECT)                        \* GET only with Connect

\* a supported boolean dimension is tested both ways, an unsupported one only "off"
BoolRange(supported) == IF supported THEN {FALSE, TRUE} ELSE {FALSE}

\* "They are like axes in a table, and each cell in the table is a config case."
\* AsImplemented_TextCodecMatchesNothing: CODEC_TEXT "will be ignored" - no case ever uses it (a
\* table has no TEXT column), so a features list of only TEXT yields no cases and an entry pinned
\* to TEXT matches nothing; the statement is silent on the other reading (treat as omitted).
Table(vs, ps, cs, zs, ss, tlsR, certR, getR, limR) ==
  [v : vs, p : ps, c : cs \cap Codecs, z : zs, s : ss, tls : tlsR, cert : certR, get : getR, lim : limR]

\* the cases implied by the features: every cell of the features' table that is possible
FeatureCases(F) ==
  {c \in Table(F.vs, F.ps, F.cs, F.zs, F.ss, BoolRange(F.tls), BoolRange(F.certs),
               BoolRange(F.get), BoolRange(F.lim)) : Possible(c, F)}

\* An entry field that is given pins the value (even beyond the features: include_cases are
\* "additional permutations ... that might otherwise be excluded based on the above features");
\* "any of the above properties may be omitted, in which case that property is treated as a
\* wildcard": "expanded to include all [values] indicated by the configured features"; for the
\* optional bools "cases for plaintext (no TLS) but also for TLS if features indicate that TLS is
\* supported" (likewise client certs and the receive limit).  ConfigCase has no GET field.
PinSet(x, S)           == IF x = 0 THEN S ELSE {x}
PinBool(t, supported)  == IF t = "unset" THEN BoolRange(supported) ELSE {t = "true"}

EntryCases(F, e) ==
  {c \in Table(PinSet(e.v, F.vs), PinSet(e.p, F.ps), PinSet(e.c, F.cs), PinSet(e.z, F.zs),
               PinSet(e.s, F.ss), PinBool(e.tls, F.tls), PinBool(e.cert, F.certs),
               BoolRange(F.get), PinBool(e.lim, F.lim)) : Possible(c, F)}

EntryUnion(F, es) == UNION {EntryCases(F, es[i]) : i \in DOMAIN es}

Result(F, cfg) == (FeatureCases(F) \cup EntryUnion(F, cfg.inc)) \ EntryUnion(F, cfg.exc)

(* --------------------------- contradictory entries --------------------------- *)
\* ranges an entry leaves for the version and for TLS
VerRange(F, e) == PinSet(e.v, F.vs)
TlsRange(F, e) == PinBool(e.tls, F.tls)

\* An entry whose *given* fields break one of the possibility clauses directly must be rejected;
\* each element names the broken clause.  (use_tls_client_certs "Must be false if use_tls is
\* false": the combination cert=false, tls=false is the documented legal one.)
EntryMust(F, e) ==
       When(e.v = H3 /\ TRUE \notin TlsRange(F, e),                        "h3-without-tls")
  \cup When(e.v = H2 /\ ~F.h2c /\ TRUE \notin TlsRange(F, e),              "h2-without-tls-or-h2c")
  \cup When(e.p = GRPC /\ H2 \notin VerRange(F, e),                        "grpc-without-h2")
  \cup When(e.cert = "true" /\ e.tls = "false",                            "certs-with-tls-off")
  \cup When(e.cert = "true" /\ e.tls = "unset" /\ ~F.tls,                  "certs-without-tls")
  \cup When(e.s = FULLDUP /\ VerRange(F, e) \subseteq {H1},                "fullduplex-h1-only")
  \cup When(e.s = HALFDUP /\ VerRange(F, e) \subseteq {H1} /\ ~F.hdh1,     "halfduplex-h1-only")

\* AsImplemented_IndirectlyEmptyEntryTolerated: an entry that matches nothing only through a chain
\* of clauses (e.g. {protocol: gRPC, use_tls: false} without H2C: gRPC needs HTTP/2, HTTP/2 then
\* needs TLS) or through CODEC_TEXT may be rejected or may silently contribute nothing; the
\* statement only demands rejection of "contradictory" configurations and the set equation holds
\* either way.  An entry that matches something must never be rejected.
EntryGap(F, e) == EntryMust(F, e) = {} /\ EntryCases(F, e) = {}

(* ----------------------- integer codes and fingerprints ----------------------- *)
\* A case as an integer (the Go harness uses the same formula); 720 "core" combinations x 12.
B(b) == IF b THEN 1 ELSE 0
CoreCode(c) == (((((((c.v - 1) * 3 + (c.p - 1)) * 5 + (c.s - 1)) * 2 + B(c.tls)) * 2 + B(c.cert)) * 2 + B(c.get)) * 2 + B(c.lim))
Code(c)     == CoreCode(c) * 12 + (c.c - 1) * 6 + (c.z - 1)
Codes(S)    == {Code(c) : c \in S}

\* order-independent fingerprint of a set of codes (all sums stay below 2^31)
FP(K) == [n  |-> Cardinality(K),
          h1 |-> FoldSet(LAMBDA k, a : a + k, 0, K),
          h2 |-> FoldSet(LAMBDA k, a : a + ((k * k) % 65521), 0, K),
          h3 |-> FoldSet(LAMBDA k, a : a + ((k * 7919 + 13) % 8647), 0, K)]
(* ------------------------------- the verdict ------------------------------- *)
Entries(cfg) == cfg.inc \o cfg.exc          \* position k <= Len(inc) is include #k, else exclude #(k-Len(inc))

\* An observation is one of
\*   [kind |-> "feature-error", class |-> name]
\*   [kind |-> "entry-error", pos |-> k, class |-> name]        (k indexes Entries(cfg))
\*   [kind |-> "empty-error"]
\*   [kind |-> "cases", cases |-> set of the integer Codes of the returned cases,
\*                      dups |-> number of repeated elements in the returned slice]
Conforms(obs, cfg) ==
  LET fe == FeatErrs(cfg.f)
      F  == Resolve(cfg.f)
      es == Entries(cfg)
      anyMust == \E k \in DOMAIN es : EntryMust(F, es[k]) # {}
  IN IF fe # {}
       THEN obs.kind = "feature-error" /\ obs.class \in fe
       ELSE CASE obs.kind = "feature-error" -> FALSE
              [] obs.kind = "entry-error"   -> /\ obs.pos \in DOMAIN es
                                               /\ \/ obs.class \in EntryMust(F, es[obs.pos])
                                                  \/ EntryGap(F, es[obs.pos])
              [] obs.kind = "empty-error"   -> ~anyMust /\ Result(F, cfg) = {}
              [] obs.kind = "cases"         -> /\ ~anyMust
                                               /\ obs.cases # {}
                                               /\ obs.dups = 0
                                               /\ obs.cases = Codes(Result(F, cfg))
              [] OTHER -> FALSE

=============================================================================
