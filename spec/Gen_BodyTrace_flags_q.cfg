CONSTANTS
  FlagSet = {0, 1, 2, 3, 128, 129, 4}
  LenSet = {0, 2}
  PcSet = {"plain", "comp", "compEmpty", "garbage"}
  EncSet = {"none", "identity", "real", "unknown"}
  HdrMode = "mixed"
  SideSet = {"req", "resp"}
  EndSet = {"eof", "err", "close", "closeerr"}
  MaxEnvs = 1
  MaxTotal = 7
  ChunkSet = {3}
  MaxPost = 0
  MaxOther = 0
  Grain = "call"
  ConsultBit = TRUE
  KeepHist = TRUE
INIT Init
NEXT Next
INVARIANTS Agrees Emit
