\* design check with entries: (quick tier) <= 1 include and <= 1 exclude from the 16-entry mixed pool x 3 version sets x 8 flag seeds; all laws
CONSTANTS
  NZ = 2
  AxisVs <- ListVs
  AxisPs <- EntPs2
  AxisCs = {{}}
  AxisZs = {{}}
  AxisSs <- EntSs2
  TriH2c = {"unset", "false"}
  TriTls = {"unset", "false"}
  TriCerts = {"unset", "true"}
  TriTrailers = {"unset"}
  TriHdh1 = {"unset"}
  TriGet = {"unset"}
  TriLim = {"unset"}
  EntryPool <- EntrySmallPool
  MaxInc = 1
  MaxExc = 1
INIT Init
NEXT Next
VIEW View
INVARIANTS TypeOK Agrees Exact ResolveAgrees AccInv AllPossible CodeInjective MustImpliesEmpty Monotone IncludeThenExclude WildcardEntryIsFeatures
