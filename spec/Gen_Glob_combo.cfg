CONSTANTS
  Family = "combo"
  Lits = {"a", "b", "c"}
  MaxPat = 4
  MinName = 2
  MaxName = 4
  MaxSet = 3
  SimNames = 4
  SimSets = 3
INIT Init
NEXT Next
INVARIANTS Emit
