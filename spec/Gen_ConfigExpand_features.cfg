\* features interplay: all version and protocol subsets x 8 stream classes x 3^5 interacting flags
CONSTANTS
  NZ = 6
  AxisVs <- AllVs
  AxisPs <- AllPs
  AxisCs = {{}}
  AxisZs = {{}}
  AxisSs <- StreamClasses
  TriH2c <- Tri
  TriTls <- Tri
  TriCerts <- Tri
  TriTrailers <- Tri
  TriHdh1 <- Tri
  TriGet = {"unset"}
  TriLim = {"unset"}
  EntryPool = {}
  MaxInc = 0
  MaxExc = 0
INIT GenInit
NEXT GenNext
INVARIANTS Emit
