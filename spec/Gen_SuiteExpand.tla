-------------------------- MODULE Gen_SuiteExpand --------------------------
(* Behaviour generator for C07.  A behaviour is the construction of one run: pick the run mode and
   the set of config cases, then add suite files one at a time (directives, then test cases one at
   a time).  Every completed run is printed with the outcome the DECLARATIVE meaning requires
   (SuiteExpandDecl!Outcome: rejection classes, or the exact set of permutations with their names,
   request fields and gRPC-peer copies) - computed without the machine and without the Go code.

   Used exhaustively (BFS) over the lattices selected by the Gen_SuiteExpand_*.cfg files, sampled
   by VERIF_STRIDE / VERIF_PHASE, and under -simulate (WalkInit/WalkNext) over the whole pools
   (up to 3 suites, up to 8 tests, any relevance shape, any flags). *)
EXTENDS SuiteExpandPools, Json, IOUtils

VARIABLES b,        \* [mode, cs, suites]  the run built so far
          stage     \* "env" | "suite" | "tests" | "done"

Env(name, default) == IF name \in DOMAIN IOEnv THEN IOEnv[name] ELSE default
CONSTANT MaxRestricted   \* at most this many of the four relevance axes carry a list (pairwise coverage with 2)

SStride == atoi(Env("VERIF_SSTRIDE", "1"))    \* keep every SStride-th directive combination ...
TStride == atoi(Env("VERIF_TSTRIDE", "1"))    \* ... and every TStride-th test list of a suite
Phase   == atoi(Env("VERIF_PHASE", "0"))
Mix(n) == (((n % 10007) + 1 + 131 * (Phase % 97)) * 7919) % 10007
Keep(n, stride) == Mix(n) % stride = 0

DirNo(n, m, ip, iv, ic, iz, fl, cv) == n + 12 * (m + 3 * (ip + 15 * (iv + 15 * (ic + 15 * (iz + 15 * (fl + 16 * cv))))))

GInit == b = [mode |-> 0, cs |-> 0, suites |-> <<>>] /\ stage = "env"

PickEnv == /\ stage = "env"
           /\ \E m \in RunModes, k \in CaseSets : b' = [b EXCEPT !.mode = m, !.cs = k]
           /\ stage' = "suite"

AddSuiteFrom(NS, MS, PS, VS, CS, ZS, FS, KS) ==
  \E n \in NS, m \in MS, ip \in PS, iv \in VS, ic \in CS, iz \in ZS, fl \in FS, cv \in KS :
     /\ Cardinality({a \in {<<1, ip>>, <<2, iv>>, <<3, ic>>, <<4, iz>>} : a[2] # 1}) <= MaxRestricted
     /\ Keep((DirNo(n, m, ip, iv, ic, iz, fl, cv) % 99991) * 48 + b.mode * 16 + b.cs, SStride)
     /\ b' = [b EXCEPT !.suites = Append(@, MkSuite(n, m, ip, iv, ic, iz, fl, cv, <<>>))]

AddSuite == /\ stage = "suite" /\ Len(b.suites) < MaxSuites
            /\ IF b.suites = <<>> THEN AddSuiteFrom(SNames, SModes, RelPs, RelVs, RelCs, RelZs, Flags, Cvms)
                                  ELSE AddSuiteFrom(SNames2, SModes2, RelPs2, RelVs2, RelCs2, RelZs2, Flags2, Cvms2)
            /\ stage' = "tests"

CurTests == b.suites[Len(b.suites)].tests
TIdx     == IF Len(b.suites) = 1 THEN TestIdx ELSE TestIdx2
TLens    == IF Len(b.suites) = 1 THEN TestLens ELSE TestLens2
MaxOf(S) == CHOOSE x \in S : \A y \in S : y <= x

AddTest == /\ stage = "tests" /\ Len(CurTests) < MaxOf(TLens)
           /\ \E i \in TIdx : b' = [b EXCEPT !.suites[Len(b.suites)].tests = Append(@, TestPool[i])]
           /\ UNCHANGED stage

RECURSIVE TestsNo(_)
TestsNo(ts) == IF ts = <<>> THEN 7
               ELSE (TestsNo(Tail(ts)) * 29 + (CHOOSE k \in 1..Len(TestPool) : TestPool[k] = Head(ts))) % 99991

CloseSuite == /\ stage = "tests" /\ Len(CurTests) \in TLens
              /\ Keep(TestsNo(CurTests) * 48 + b.mode * 16 + b.cs + 1000 * Len(b.suites), TStride)
              /\ stage' = "suite" /\ UNCHANGED b

Finish == /\ stage = "suite" /\ b.suites # <<>>
          /\ stage' = "done" /\ UNCHANGED b

GNext == PickEnv \/ AddSuite \/ AddTest \/ CloseSuite \/ Finish

(* ------------------------------- random walks (-simulate) ------------------------------- *)
OneOf(seq) == seq[RandomElement(1..Len(seq))]
\* biased draws; the dummy parameter keeps TLC from caching them as constants
SomeRel(d, hi) == IF RandomElement(1..10) <= 6 THEN 1 ELSE OneOf(<<2, 2, 3, 4, 5, 5, 6, 7, 8, 9, 10, 11, 11, 12>> \o hi)
SomeFlags(d)   == IF RandomElement(1..10) <= 6 THEN 0 ELSE OneOf(<<1, 1, 1, 3, 3, 4, 8, 8, 2, 5, 9, 12, 15>>)
SomeCvm(d)     == OneOf(<<0, 0, 0, 0, 0, 0, 0, 0, 0, 0, 1, 2>>)
SomeName(d)    == OneOf(<<1, 2, 3, 4, 5, 1, 2, 3, 4, 5, 1, 2, 3, 4, 5, 6>>)
SomeTest(d)    == LET r == RandomElement(1..100) IN
                  IF r <= 84 THEN OneOf(<<1, 2, 3, 4, 5, 6, 7, 17, 18, 19, 20, 2, 4, 5, 6, 7>>)
                  ELSE IF r <= 94 THEN OneOf(<<12, 13, 14, 16>>)
                  ELSE OneOf(<<8, 9, 10, 11, 15, 21>>)
SomeCs(d)      == OneOf(<<1, 2, 3, 4, 5, 6, 7, 9, 2, 3, 4, 7, 9, 8, 8>>)

WalkInit == GInit
\* one random draw per step (a step has exactly one successor)
WalkNext ==
  \E r \in {RandomElement(1..60)} :
    IF stage = "env"
      THEN /\ b' = [b EXCEPT !.mode = RandomElement(0..2), !.cs = SomeCs(0)]
           /\ stage' = "suite"
    ELSE IF stage = "suite" /\ (b.suites = <<>> \/ (Len(b.suites) < 3 /\ r <= 25))
      THEN /\ b' = [b EXCEPT !.suites = Append(@, MkSuite(SomeName(1), OneOf(<<0, 0, 0, 1, 2>>), SomeRel(2, <<>>), SomeRel(3, <<>>),
                                                          SomeRel(4, <<>>), SomeRel(5, <<13, 14>>), SomeFlags(6), SomeCvm(7), <<>>))]
           /\ stage' = "tests"
    ELSE IF stage = "suite"
      THEN stage' = "done" /\ UNCHANGED b
    ELSE IF stage = "tests" /\ Len(CurTests) < 8 /\ ((CurTests = <<>> /\ r > 1) \/ (CurTests # <<>> /\ r <= 40))
      THEN /\ b' = [b EXCEPT !.suites[Len(b.suites)].tests = Append(@, TestPool[SomeTest(Len(CurTests))])]
           /\ UNCHANGED stage
    ELSE IF stage = "tests"
      THEN stage' = "suite" /\ UNCHANGED b
    ELSE FALSE

(* ------------------------------- what the specification requires ------------------------------- *)
Expectation ==
  LET O  == Outcome(b.suites, CaseSet(b.cs), b.mode)
      wf == NamesWellFormed(b.suites)
      P  == O.perms
      G(cg, sg) == IF wf /\ O.k = "ok" THEN GrpcPerms(b.suites, P, cg, sg) ELSE {}
  IN [k |-> O.k, errs |-> O.errs,
      perms |-> {PermTuple(q) \o <<q.si, q.ti>> : q \in P},
      grpc  |-> [c |-> G(TRUE, FALSE), s |-> G(FALSE, TRUE), cs |-> G(TRUE, TRUE)],
      nall  |-> IF wf /\ O.k = "ok"
                  THEN <<AllPermCount(b.suites, P, FALSE, FALSE), AllPermCount(b.suites, P, TRUE, FALSE),
                         AllPermCount(b.suites, P, FALSE, TRUE), AllPermCount(b.suites, P, TRUE, TRUE)>>
                  ELSE <<>>]

Emit == (stage = "done") =>
          PrintT("SCN " \o ToJson([mode |-> b.mode, cs |-> b.cs, suites |-> b.suites,
                                   wf |-> NamesWellFormed(b.suites), exp |-> Expectation]))

\* printed once per run: the case sets the scenarios refer to
ASSUME \A k \in 1..NCaseSets :
         PrintT("CASESET " \o ToJson([id |-> k, cases |-> {CaseTuple(c) : c \in CaseSet(k)}]))
=============================================================================
