CONSTANTS
  MaxOps = 4
  KeepHist = TRUE
  Proto = "h1"
  DelBeforeTrailers = TRUE
  Alphabet = "full"
  Codes = {500}
  Chunks = {"c1"}
  RawIds = {"D1", "D2"}
  MidRaw = TRUE
SPECIFICATION Spec
INVARIANTS Mutex Pending RawExact NoLeak Agrees
