--------------------------- MODULE Trace_ClientMux ---------------------------
(* code -> spec binding for C10.  Each line of the file is the event log of one execution of the
   real runClient/sendRequest/consumeOutput/closeSend/waitForResponses against a scripted
   in-process client: Call/Ret markers of every blocking operation, every callback, and the
   final isRunning() sample, in the order of a single sequencer.  All state-changing steps of the
   specification are silent; a trace is accepted iff some interleaving of silent steps explains
   the markers in order. *)
EXTENDS ClientMux, Json, IOUtils
ScriptA == [s \in Senders |-> IF s = "s1" THEN <<"a", "b">> ELSE <<"a">>]
ScriptB == [s \in Senders |-> IF s = "s1" THEN <<"a", "b", "a">> ELSE <<"c", "a">>]

Recs == ndJsonDeserialize(IOEnv.VERIF_TRACE)
VARIABLES ti, l
Evs == Recs[ti].events
Has == l <= Len(Evs)
Ev  == Evs[l]
Adv == l' = l + 1 /\ ti' = ti

Refused(r) == r \in {"closed", "err"}

TInit == Init /\ ti \in 1..Len(Recs) /\ l = 1

TNext ==
  \/ Internal /\ UNCHANGED <<ti, l>>
  \/ /\ Has /\ Adv
     /\ \/ Ev.e = "SendCall" /\ SendCall(Ev.s) /\ Cur(Ev.s) = Ev.n
        \/ Ev.e = "SendRet"  /\ SendRet(Ev.s) /\ Cur(Ev.s) = Ev.n
                             /\ (IF Ev.r = "refused" THEN Refused(res[Ev.s]) ELSE res[Ev.s] = Ev.r)
        \/ Ev.e = "ReadCall" /\ ReadCall
        \/ Ev.e = "ReadRet"  /\ ReadRet /\ cret = Ev.r
        \/ Ev.e = "WriteCall" /\ WriteCall(Ev.k, Ev.n)
        \/ Ev.e = "WriteRet" /\ WriteRet /\ cret' = Ev.r
        \/ Ev.e = "Exit"     /\ Exit(Ev.fail)
        \/ Ev.e = "CloseInCall" /\ CloseInCall
        \/ Ev.e = "CloseInRet"  /\ CloseInRet
        \/ Ev.e = "CloseOutCall" /\ CloseOutCall
        \/ Ev.e = "CloseOutRet"  /\ CloseOutRet
        \/ Ev.e = "WaitAbortCall" /\ WaitAbortCall
        \/ Ev.e = "StallCall" /\ StallCall
        \* the client waited (3 s) for its context to be cancelled: only "aborted" can be explained
        \/ Ev.e = "WaitAbortRet"  /\ Ev.r = "aborted" /\ WaitAbortRet
        \/ Ev.e = "Cb"       /\ CbStep /\ cblog'[Len(cblog')] = <<Ev.n, Ev.k, Ev.s, Ev.i>>
        \/ Ev.e = "CloseCall" /\ CloseCall
        \/ Ev.e = "CloseRet" /\ CloseRet
        \/ Ev.e = "WaitCall" /\ WaitCall
        \/ Ev.e = "WaitRet"  /\ WaitRet /\ wres = Ev.r
        \/ Ev.e = "Running"  /\ pdone /\ terminated /\ UNCHANGED vars
                             /\ (Ev.b = FALSE \/ PrintT("STILL-RUNNING " \o ToString(ti)))

Accepted == (l = Len(Evs) + 1) => PrintT("ACCEPT " \o ToString(ti))
\* the design invariants are evaluated on every state of every explained execution as well
=============================================================================
