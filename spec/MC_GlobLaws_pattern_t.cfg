CONSTANTS
  Lits = {"a", "b"}
  MaxPat = 4
  MaxName = 5
  MaxArgs = 0
  MaxLines = 0
  Mode = "pattern"
INIT Init
NEXT Next
INVARIANTS ThreeWay DStarIdem WildLaws
