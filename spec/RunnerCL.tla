------------------------------ MODULE RunnerCL ------------------------------
(* C05, client loss - Runner.tla with a client that may fail at any time (it exits, or answers something the runner
   rejects).  From then on no request reaches it; batches in flight fail what they have not sent (Runner's Abandon) and
   stop their servers; the dispatcher starts no further batch (connectconformance.go: "if !clientProcess.isRunning()
   return err") - the batches still idle are skipped and their cases get no outcome at all; and the run ends - with
   every server process it started gone, which is the point: the early return must still wait for the batches in flight.

   Runner's variables and actions are used as they are; this module adds the two facts and restricts / extends Next. *)
EXTENDS Runner

VARIABLES clientDead,   \* the client has failed
          skipped       \* batches that were never started because of it
varsCL == <<vars, clientDead, skipped>>

InitCL == Init /\ clientDead = FALSE /\ skipped = {}

ClientDies == /\ ~clientDead /\ ~finished
              /\ clientDead' = TRUE /\ UNCHANGED <<vars, skipped>>
\* the dispatcher, at its next turn, finds the client gone: the batch is never started (it holds no slot, has no process)
Skip(b) == /\ clientDead /\ srv[b] = "idle" /\ \A c \in Batches : c < b => srv[c] # "idle"
           /\ srv' = [srv EXCEPT ![b] = "released"] /\ skipped' = skipped \cup {b}
           /\ UNCHANGED <<addr, sem, sent, setupFailed, nextAddr, finished, proc, clientDead>>
\* a step of Runner, except that a dead client receives nothing and that no batch is started for it
RunnerStep == /\ Next /\ UNCHANGED <<clientDead, skipped>>
              /\ clientDead => /\ sent' = sent
                               /\ \A b \in Batches : ~(srv[b] = "idle" /\ srv'[b] = "acquired")
NextCL == RunnerStep \/ ClientDies \/ \E b \in Batches : Skip(b)
\* fairness: the runner's own steps; the client is not obliged to fail
SpecCL == InitCL /\ [][NextCL]_varsCL /\ WF_varsCL(RunnerStep) /\ \A b \in Batches : WF_varsCL(Skip(b))

SkippedCases == UNION {Plan[b].cases : b \in skipped}
\* every case of a batch that was started has exactly one fate; the cases of skipped batches have none
CompleteCL == finished => /\ sent \cup setupFailed = AllCases \ SkippedCases
                          /\ \A b \in Batches : srv[b] = "released"
SkippedUntouched == /\ SkippedCases \cap (sent \cup setupFailed) = {}
                    /\ \A b \in skipped : proc[b] = "none"
OnlyAfterLoss == skipped # {} => clientDead
\* Runner's AliveBound, NoneLeftRunning, AtMostOnce, DistinctAddrs are checked unchanged; Terminates under SpecCL
=============================================================================
