CONSTANTS
  Plan <- PlanA
  MaxServers = 2
SPECIFICATION Spec
INVARIANTS AliveBound AtMostOnce Complete DistinctAddrs NoneLeftRunning
PROPERTIES Terminates
