CONSTANTS
  Names = {"a", "b", "c"}
  Waiters = {"w1", "w2"}
  MaxOps = 7
  MaxGen = 4
  KeepHist = FALSE
SPECIFICATION Spec
INVARIANTS TypeOK GotRight NeverBlockedOnAbsent GenOwner CtxAlwaysPossible
PROPERTIES FirstWins CompleteOnlyPendingCurrent NoLostWakeup
