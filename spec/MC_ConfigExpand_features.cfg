\* design check, features only: every subset of versions and protocols x 8 stream-type classes x
\* codec sets {} and {TEXT} x all 3^5 tri-states of the interacting flags, no entries
CONSTANTS
  NZ = 2
  AxisVs <- AllVs
  AxisPs <- AllPs
  AxisCs = {{}, {3}}
  AxisZs = {{}}
  AxisSs <- StreamClasses
  TriH2c <- Tri
  TriTls <- Tri
  TriCerts <- Tri
  TriTrailers <- Tri
  TriHdh1 <- Tri
  TriGet = {"unset"}
  TriLim = {"unset"}
  EntryPool = {}
  MaxInc = 0
  MaxExc = 0
INIT Init
NEXT Next
VIEW View
INVARIANTS TypeOK Agrees Exact ResolveAgrees AccInv AllPossible FeaturesNonEmpty DefaultsNeverContradict CodeInjective WildcardEntryIsFeatures
