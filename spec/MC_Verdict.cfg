CONSTANTS
  N = 3
INIT Init
NEXT Next
INVARIANTS Agrees Laws
